package main

// C20 - ascii predicates equal their byte-wise definitions at every length.
//
// Vectors from spec/Ascii.tla: pairs of short strings over a base byte with one
// or two representative deviations, with the specification's answers.  Each is
// checked as is, and lifted: the base run is stretched to lengths up to 272
// (past four 64-byte blocks) at every start alignment, the deviations kept at
// the first / middle / last (thorough: every) position; the byte-wise
// definitions (restated below and cross-checked against the spec's answers on
// the small case) give the expectation.  Run once with the default build and
// once with -tags purego.

import (
	"bytes"
	stdjson "encoding/json"
	"fmt"
	"math"
	"strings"
	"unsafe"

	"github.com/segmentio/encoding/ascii"
)

type asciiVec struct {
	A     []int `json:"a"`
	B     []int `json:"b"`
	Valid bool  `json:"valid"`
	Print bool  `json:"print"`
	Eq    bool  `json:"eq"`
	Pre   bool  `json:"pre"`
	Suf   bool  `json:"suf"`
}

type c20Case struct {
	API  string `json:"api"`
	A    []byte `json:"a"`
	B    []byte `json:"b"`
	Off  int    `json:"align"`
	Want bool   `json:"want"`
}

func defValid(s []byte) bool {
	for _, c := range s {
		if c >= 0x80 {
			return false
		}
	}
	return true
}
func defPrint(s []byte) bool {
	for _, c := range s {
		if c < 0x20 || c > 0x7e {
			return false
		}
	}
	return true
}
func defFold(c byte) byte {
	if c >= 'A' && c <= 'Z' {
		return c + 32
	}
	return c
}
func defEq(a, b []byte) bool {
	if len(a) != len(b) {
		return false
	}
	for i := range a {
		if defFold(a[i]) != defFold(b[i]) {
			return false
		}
	}
	return true
}
func defPre(s, p []byte) bool { return len(s) >= len(p) && defEq(s[:len(p)], p) }
func defSuf(s, x []byte) bool { return len(s) >= len(x) && defEq(s[len(s)-len(x):], x) }

func isASCII(s []byte) bool { return defValid(s) }

// place copies s at the given alignment inside a larger buffer so that the first byte's address varies
// The bytes around it are the caller's and none of the predicates' business: they are filled with bytes that
// would change the answer if they were looked at (non-ASCII; different around the two arguments), and at odd
// alignments the slice has spare capacity reaching into them.
func place(s []byte, off int) []byte { return placeIn(s, off, 0xff) }

func placeIn(s []byte, off int, fill byte) []byte {
	buf := make([]byte, len(s)+160)
	for i := range buf {
		buf[i] = fill
	}
	base := 64 - int(uintptrOf(buf)%64)
	copy(buf[base+off:], s)
	if off%2 == 1 {
		return buf[base+off : base+off+len(s) : base+off+len(s)+24]
	}
	return buf[base+off : base+off+len(s) : base+off+len(s)]
}

func c20Check(c *Ctx, api string, a, b []byte, off int, want bool, f func() bool) {
	var got bool
	c.Eval(1)
	if p := protect(func() { got = f() }); p != "" {
		c.Diverge("C20", api, fmt.Sprint(want), p, "", c20Case{api, a, b, off, want})
		return
	}
	if got != want {
		c.Diverge("C20", api, fmt.Sprint(want), fmt.Sprint(got), "", c20Case{api, a, b, off, want})
	}
}

// c20Aliased: the two arguments may be views of the same memory (a string and its own prefix / suffix, a slice
// and itself): the answers are those of the definitions all the same
func c20Aliased(c *Ctx, a0 []byte, off int) {
	if !isASCII(a0) {
		return
	}
	s := placeIn(a0, off, 0xff)
	str := string(s)
	for _, k := range []int{0, 1, len(s) / 2, len(s) - 1, len(s)} {
		if k < 0 || k > len(s) {
			continue
		}
		pre, suf := s[:k], s[len(s)-k:]
		c20Check(c, "HasPrefixFold(aliased)", a0, pre, off, defPre(s, pre), func() bool { return ascii.HasPrefixFold(s, pre) })
		c20Check(c, "HasPrefixFold(aliased, longer prefix)", pre, a0, off, defPre(pre, s), func() bool { return ascii.HasPrefixFold(pre, s) })
		c20Check(c, "HasSuffixFold(aliased)", a0, suf, off, defSuf(s, suf), func() bool { return ascii.HasSuffixFold(s, suf) })
		c20Check(c, "HasSuffixFold(aliased, longer suffix)", suf, a0, off, defSuf(suf, s), func() bool { return ascii.HasSuffixFold(suf, s) })
		c20Check(c, "EqualFold(aliased)", a0, pre, off, defEq(s, pre), func() bool { return ascii.EqualFold(s, pre) })
		c20Check(c, "EqualFold(aliased)", pre, a0, off, defEq(pre, s), func() bool { return ascii.EqualFold(pre, s) })
		c20Check(c, "HasPrefixFoldString(aliased)", a0, pre, off, defPre(s, pre), func() bool { return ascii.HasPrefixFoldString(str, str[:k]) })
		c20Check(c, "HasPrefixFoldString(aliased, longer prefix)", pre, a0, off, defPre(pre, s), func() bool { return ascii.HasPrefixFoldString(str[:k], str) })
		c20Check(c, "HasSuffixFoldString(aliased)", a0, suf, off, defSuf(s, suf), func() bool { return ascii.HasSuffixFoldString(str, str[len(str)-k:]) })
		c20Check(c, "EqualFoldString(aliased)", a0, pre, off, defEq(s, pre), func() bool { return ascii.EqualFoldString(str, str[:k]) })
	}
}

func c20All(c *Ctx, a0, b0 []byte, off int) {
	c20Aliased(c, a0, off)
	a, b := placeIn(a0, off, 0xff), placeIn(b0, (off*7+3)%64, 0x80)
	c20Check(c, "Valid", a0, nil, off, defValid(a), func() bool { return ascii.Valid(a) })
	c20Check(c, "ValidString", a0, nil, off, defValid(a), func() bool { return ascii.ValidString(string(a)) })
	c20Check(c, "ValidPrint", a0, nil, off, defPrint(a), func() bool { return ascii.ValidPrint(a) })
	c20Check(c, "ValidPrintString", a0, nil, off, defPrint(a), func() bool { return ascii.ValidPrintString(string(a)) })
	if isASCII(a) && isASCII(b) { // the fold family is specified for ASCII inputs
		c20Check(c, "EqualFold", a0, b0, off, defEq(a, b), func() bool { return ascii.EqualFold(a, b) })
		c20Check(c, "EqualFoldString", a0, b0, off, defEq(a, b), func() bool { return ascii.EqualFoldString(string(a), string(b)) })
		c20Check(c, "HasPrefixFold", a0, b0, off, defPre(a, b), func() bool { return ascii.HasPrefixFold(a, b) })
		c20Check(c, "HasPrefixFoldString", a0, b0, off, defPre(a, b), func() bool { return ascii.HasPrefixFoldString(string(a), string(b)) })
		c20Check(c, "HasSuffixFold", a0, b0, off, defSuf(a, b), func() bool { return ascii.HasSuffixFold(a, b) })
		c20Check(c, "HasSuffixFoldString", a0, b0, off, defSuf(a, b), func() bool { return ascii.HasSuffixFoldString(string(a), string(b)) })
	}
}

func toBytes(xs []int) []byte {
	b := make([]byte, len(xs))
	for i, x := range xs {
		b[i] = byte(x)
	}
	return b
}

// stretch maps the small string onto a long one: base bytes fill, deviations land at mapped positions
func stretchASCII(s []byte, n int, mode int) []byte {
	if len(s) == 0 || n <= len(s) {
		return s
	}
	out := make([]byte, n)
	for i := range out {
		out[i] = 'a'
	}
	for i, c := range s {
		if c == 'a' {
			continue
		}
		var pos int
		switch mode {
		case 0: // proportional
			pos = i * (n - 1) / max(len(s)-1, 1)
		case 1: // packed at the end
			pos = n - len(s) + i
		default: // packed at the start
			pos = i
		}
		out[pos] = c
	}
	return out
}

var c20Lens = []int{7, 8, 9, 15, 16, 17, 31, 32, 33, 63, 64, 65, 127, 128, 129, 255, 256, 257, 272}

func c20Vector(c *Ctx, raw stdjson.RawMessage) {
	var v asciiVec
	if err := stdjson.Unmarshal(raw, &v); err != nil {
		return
	}
	c.Nontrivial()
	a, b := toBytes(v.A), toBytes(v.B)
	// the restated definitions must agree with the specification on the small case
	if defValid(a) != v.Valid || defPrint(a) != v.Print || defEq(a, b) != v.Eq || defPre(a, b) != v.Pre || defSuf(a, b) != v.Suf {
		c.SpecError("C20", "harness definitions disagree with Ascii.tla", v)
		return
	}
	r := newRng(c.Seed, string(raw))
	c.Case()
	c20All(c, a, b, 0)
	lens := c20Lens
	aligns := []int{r.intn(64), r.intn(64)}
	if c.Tier == "thorough" {
		aligns = []int{0, 1, 7, 8, 15, 31, 32, 33, 63, r.intn(64)}
	} else {
		lens = []int{c20Lens[r.intn(len(c20Lens))], c20Lens[r.intn(len(c20Lens))], 272}
	}
	for _, n := range lens {
		for mode := 0; mode < 3; mode++ {
			la := stretchASCII(a, n, mode)
			// b keeps its length relation to a: equal, shorter (prefix/suffix) or longer by the same amount
			lb := stretchASCII(b, max(n+len(b)-len(a), len(b)), mode)
			for _, off := range aligns {
				c.Case()
				c20All(c, la, lb, off)
			}
		}
	}
	c.Sample(map[string]any{"a": v.A, "b": v.B})
}

// c20Mutated: the predicates are functions of the bytes they are given now: a buffer is asked about, changed in
// place, and asked about again (through a slice and through a string laid over it), at every length and position
func c20Mutated(c *Ctx) {
	for n := 1; n <= 96; n++ {
		for _, pos := range []int{0, n / 2, n - 1} {
			buf := bytes.Repeat([]byte{'a'}, n)
			str := unsafe.String(&buf[0], n)
			other := bytes.Repeat([]byte{'A'}, n)
			ostr := string(other)
			k := c20Case{"mutated buffer", []byte{byte(n)}, []byte{byte(pos)}, 0, true}
			ask := func(round string, valid, print, eq bool) {
				for _, q := range []struct {
					api  string
					want bool
					f    func() bool
				}{
					{"Valid", valid, func() bool { return ascii.Valid(buf) }},
					{"ValidString", valid, func() bool { return ascii.ValidString(str) }},
					{"ValidPrint", print, func() bool { return ascii.ValidPrint(buf) }},
					{"ValidPrintString", print, func() bool { return ascii.ValidPrintString(str) }},
					{"EqualFold", eq, func() bool { return ascii.EqualFold(buf, other) }},
					{"EqualFoldString", eq, func() bool { return ascii.EqualFoldString(str, ostr) }},
					{"HasPrefixFoldString", eq, func() bool { return ascii.HasPrefixFoldString(str, ostr) }},
					{"HasSuffixFoldString", eq, func() bool { return ascii.HasSuffixFoldString(str, ostr) }},
				} {
					var got bool
					c.Eval(1)
					if p := protect(func() { got = q.f() }); p != "" || got != q.want {
						c.Diverge("C20", q.api+"(the same memory asked about again after a change)", fmt.Sprint(q.want), fmt.Sprintf("%v %s (length %d, byte %d, %s)", got, p, n, pos, round), "", k)
					}
				}
			}
			c.Case()
			ask("before the change", true, true, true)
			buf[pos] = 0xe9
			ask("a byte made non-ASCII", false, false, false)
			buf[pos] = 0x07
			ask("the byte made a control character", true, false, false)
			buf[pos] = 'A'
			ask("the byte made the other case", true, true, true)
			buf[pos] = 'b'
			ask("the byte made another letter", true, true, false)
		}
	}
}

// c20Pages: short and long inputs laid across a 4096-byte page boundary (a whole-word load must not stand in for the
// bytes on the other side), with the one byte that decides the answer at each position
func c20Pages(c *Ctx) {
	buf := make([]byte, 3*4096)
	base := uintptr(unsafe.Pointer(&buf[0]))
	edge := int((4096-base%4096)%4096) + 4096 // index of the first byte of a page, with a full page before it
	for n := 1; n <= 24; n++ {
		for start := edge - n - 1; start <= edge+1; start++ {
			for pos := 0; pos < n; pos++ {
				for _, bad := range []byte{0x80, 0x07} {
					for i := range buf {
						buf[i] = 'a'
					}
					buf[start+pos] = bad
					b := buf[start : start+n : start+n]
					str := unsafe.String(&buf[start], n)
					k := c20Case{"pages", []byte{byte(n)}, []byte{byte(pos)}, start - edge, false}
					for _, q := range []struct {
						api  string
						want bool
						f    func() bool
					}{
						{"Valid", bad < 0x80, func() bool { return ascii.Valid(b) }},
						{"ValidString", bad < 0x80, func() bool { return ascii.ValidString(str) }},
						{"ValidPrint", false, func() bool { return ascii.ValidPrint(b) }},
						{"ValidPrintString", false, func() bool { return ascii.ValidPrintString(str) }},
					} {
						var got bool
						c.Eval(1)
						if p := protect(func() { got = q.f() }); p != "" || got != q.want {
							c.Diverge("C20", q.api+"(input across a page boundary)", fmt.Sprint(q.want), fmt.Sprintf("%v %s (length %d starting %d bytes from the boundary, byte %#x at %d)", got, p, n, start-edge, bad, pos), "", k)
						}
					}
				}
			}
		}
	}
}

func c20Extra(c *Ctx) {
	c20Mutated(c)
	c20Pages(c)
	// single bytes and runes: the whole domain
	for i := 0; i < 256; i++ {
		b := byte(i)
		c20Check(c, "ValidByte", []byte{b}, nil, 0, b < 0x80, func() bool { return ascii.ValidByte(b) })
		c20Check(c, "ValidPrintByte", []byte{b}, nil, 0, b >= 0x20 && b <= 0x7e, func() bool { return ascii.ValidPrintByte(b) })
	}
	// ValidPrintRune is a range test: no negative value is in the range, whatever its low byte is (ValidRune is only
	// asked about code points: negative runes are not runes)
	for _, rr := range []rune{-1, -0xbf, -0x100 + 0x41, math.MinInt32, math.MinInt32 + 0x41, math.MinInt32 + 0x7e, -0x80, -0x7f, -0x20, 0x100 + 0x41, 0x10000 + 0x20, 0x7fffff41} {
		r := rr
		c20Check(c, "ValidPrintRune", []byte(fmt.Sprint(r)), nil, 0, r >= 0x20 && r <= 0x7e, func() bool { return ascii.ValidPrintRune(r) })
	}
	for _, r := range []rune{0, 0x1f, 0x20, 0x7e, 0x7f, 0x80, 0xff, 0x100, 0x20ac, 0xd800, 0x10ffff} { // code points only: negative runes are not runes
		rr := r
		c20Check(c, "ValidRune", []byte(fmt.Sprint(rr)), nil, 0, rr >= 0 && rr < 0x80, func() bool { return ascii.ValidRune(rr) })
		c20Check(c, "ValidPrintRune", []byte(fmt.Sprint(rr)), nil, 0, rr >= 0x20 && rr <= 0x7e, func() bool { return ascii.ValidPrintRune(rr) })
	}
	// every (length, position, byte) single deviation for the validity predicates, bytes and string variants:
	// every length up to 80, then every fifth (thorough: every) up to 272
	for n := 0; n <= 272; n++ {
		if n > 80 && c.Tier != "thorough" && n%5 != 0 {
			continue
		}
		for pos := 0; pos < n; pos++ {
			for _, x := range []byte{0x00, 0x1f, 0x7f, 0x80, 0xff} {
				s := make([]byte, n)
				for i := range s {
					s[i] = '~'
				}
				s[pos] = x
				off := (n + pos) % 64
				p := place(s, off)
				ps := string(p)
				c20Check(c, "Valid", s, nil, off, x < 0x80, func() bool { return ascii.Valid(p) })
				c20Check(c, "ValidPrint", s, nil, off, false, func() bool { return ascii.ValidPrint(p) })
				c20Check(c, "ValidString", s, nil, off, x < 0x80, func() bool { return ascii.ValidString(ps) })
				c20Check(c, "ValidPrintString", s, nil, off, false, func() bool { return ascii.ValidPrintString(ps) })
			}
		}
		c.Case()
	}
	// the fold family: one position differs, by case only (equal) or by 0x20 between non-letters (not equal)
	for n := 1; n <= 80; n++ {
		for pos := 0; pos < n; pos++ {
			for pi, pr := range [][2]byte{{'a', 'A'}, {'Z', 'z'}, {'@', '`'}, {'[', '{'}, {'a', 'b'}} {
				// what surrounds the position: letters in both cases, and bytes on every side of the letter ranges (a
				// verdict on one byte owes nothing to its neighbours)
				fills := [][2]byte{{'q', 'Q'}}
				if n <= 40 {
					fills = [][2]byte{{'q', 'Q'}, {'1', '1'}, {'-', '-'}, {'@', '@'}, {'{', '{'}, {'Z', 'z'}, {' ', ' '}, {0x7f, 0x7f}, {'`', '`'}, {0, 0}}
				}
				for fi, fl := range fills {
					a, b := make([]byte, n), make([]byte, n)
					for i := range a {
						a[i], b[i] = fl[0], fl[1]
						if (fi+pi)%2 == 1 && i%3 == 0 {
							a[i], b[i] = 'q', 'Q' // mixed surroundings
						}
					}
					a[pos], b[pos] = pr[0], pr[1]
					off := (n*3 + pos) % 64
					pa, pb := placeIn(a, off, 0xff), placeIn(b, (off*7+3)%64, 0x80)
					sa, sb := string(pa), string(pb)
					want := defEq(a, b)
					c20Check(c, "EqualFold", a, b, off, want, func() bool { return ascii.EqualFold(pa, pb) })
					c20Check(c, "EqualFoldString", a, b, off, want, func() bool { return ascii.EqualFoldString(sa, sb) })
					// as prefix and suffix of a longer string
					long := append(append([]byte("xy"), a...), "zw"...)
					pl := placeIn(long, (off+5)%64, 0xff)
					sl := string(pl)
					c20Check(c, "HasPrefixFold", long[2:], b, off, want, func() bool { return ascii.HasPrefixFold(pl[2:], pb) })
					c20Check(c, "HasPrefixFoldString", long[2:], b, off, want, func() bool { return ascii.HasPrefixFoldString(sl[2:], sb) })
					c20Check(c, "HasSuffixFold", long[:len(long)-2], b, off, want, func() bool { return ascii.HasSuffixFold(pl[:len(pl)-2], pb) })
					c20Check(c, "HasSuffixFoldString", long[:len(long)-2], b, off, want, func() bool { return ascii.HasSuffixFoldString(sl[:len(sl)-2], sb) })
				}
			}
		}
		c.Case()
	}
}

func c20Replay(c *Ctx, raw stdjson.RawMessage) {
	var k c20Case
	if stdjson.Unmarshal(raw, &k) != nil {
		return
	}
	if strings.Contains(k.API, "Rune") || strings.Contains(k.API, "Byte") || k.API == "mutated buffer" || k.API == "pages" {
		c20Extra(c)
		return
	}
	c20All(c, k.A, k.B, k.Off)
}

func init() {
	register("C20", &Driver{Vector: c20Vector, Replay: c20Replay, Extra: c20Extra})
}
